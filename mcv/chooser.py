"""
Engine CHOICE -- the library's random number source as an explored environment.

While `owned(chooser)` is active, the module-level functions the library uses
(numpy.random.random_sample / rand / randint, random.choice; seed calls become
no-ops) are replaced: every draw is a *choice point* with a finite menu whose
index 0 is the default answer.  Any other module-level RNG entry point raises a
HarnessError, which proves that no draw escapes the explorer.

`explore(body, bound)` enumerates executions exactly like a preemption-bounded
schedule explorer: run with a forced prefix of choices and defaults afterwards,
then branch on every later choice point and every non-default alternative while
the number of deviations (non-default answers) stays within `bound`
(bound=None: the full product of all menus).
"""
import math
import random as _random
import contextlib
import numpy as np
from .core import HarnessError

PHI = (math.sqrt(5) - 1) / 2
ONE_MINUS = 1.0 - 2.0 ** -53
SCALAR_MENU = ('golden', 0.0, ONE_MINUS, 0.25, 0.75)
ARRAY_MENU = ('streamA', 'streamB', 'extremes', 'small')
CONST_FILLS = (0.0, 0.25, 0.5, 0.75, ONE_MINUS)


class Chooser(object):
    def __init__(self, prefix=(), seed=0, const_fills=False, scalar_menu=SCALAR_MENU):
        self.prefix = list(prefix)
        self.seed = seed
        self.const_fills = const_fills
        self.scalar_menu = scalar_menu
        self.points = []       # (kind, n_options)
        self.choices = []      # chosen index at each point
        self.values = []       # value handed out (for oracles)

    def _choose(self, kind, n):
        k = len(self.points)
        if k < len(self.prefix):
            c = self.prefix[k]
            if not (0 <= c < n):
                raise HarnessError('forced choice %d out of range %d at point %d (%s): replay diverged'
                                   % (c, n, k, kind))
        else:
            c = 0
        self.points.append((kind, n))
        self.choices.append(c)
        return k, c

    # -- the four draws the library makes
    def random_sample(self, size=None):
        if size is None:
            k, c = self._choose('scalar', len(self.scalar_menu))
            m = self.scalar_menu[c]
            v = ((k + 1 + self.seed) * PHI) % 1.0 if m == 'golden' else m
            self.values.append(v)
            return v
        shape = (size,) if isinstance(size, (int, np.integer)) else tuple(size)
        menu = ARRAY_MENU + (tuple(('const', f) for f in CONST_FILLS) if self.const_fills else ())
        k, c = self._choose('array%s' % (shape,), len(menu))
        m = menu[c]
        rs = np.random.RandomState((self.seed * 1000003 + k * 7919 + c * 104729 + 12345) % (2 ** 32))
        if m in ('streamA', 'streamB'):
            a = rs.random_sample(shape)
        elif m == 'extremes':
            eps = 1e-3
            a = np.where(rs.random_sample(shape) < 0.5, eps, 1 - eps) + (rs.random_sample(shape) - 0.5) * 1e-3
        elif m == 'small':
            a = 0.5 + (rs.random_sample(shape) - 0.5) * 2e-3
        else:
            a = np.full(shape, m[1])
        self.values.append(a)
        return a

    def rand(self, *shape):
        if not shape:
            return self.random_sample()
        return self.random_sample(shape)

    def randint(self, low, high=None, size=None, dtype=int):
        if size is not None:
            raise HarnessError('randint with size is not modelled')
        if high is None:
            low, high = 0, low
        n = int(high) - int(low)
        if n <= 0:
            raise ValueError('low >= high')
        k, c = self._choose('randint[%d,%d)' % (low, high), n)
        v = int(low) + c
        self.values.append(v)
        return v

    def choice(self, seq):
        n = len(seq)
        if n == 0:
            raise IndexError('Cannot choose from an empty sequence')
        k, c = self._choose('choice/%d' % n, n)
        self.values.append(('choice', seq, c))
        return seq[c]


def _unowned(name):
    def f(*a, **k):
        raise HarnessError('unowned RNG entry point %s was called' % name)
    return f


_NP_FORBID = ['uniform', 'normal', 'randn', 'choice', 'shuffle', 'permutation', 'random', 'ranf', 'sample',
              'standard_normal', 'random_integers', 'bytes']
_PY_FORBID = ['random', 'randint', 'uniform', 'shuffle', 'sample', 'randrange', 'gauss', 'choices',
              'normalvariate', 'getrandbits']


@contextlib.contextmanager
def owned(ch):
    saved_np = {}
    saved_py = {}
    patches_np = {'random_sample': ch.random_sample, 'rand': ch.rand, 'randint': ch.randint,
                  'seed': lambda *a, **k: None}
    for n in _NP_FORBID:
        if hasattr(np.random, n):
            patches_np[n] = _unowned('numpy.random.' + n)
    patches_py = {'choice': ch.choice, 'seed': lambda *a, **k: None}
    for n in _PY_FORBID:
        patches_py[n] = _unowned('random.' + n)
    try:
        for n, f in patches_np.items():
            saved_np[n] = getattr(np.random, n)
            setattr(np.random, n, f)
        for n, f in patches_py.items():
            saved_py[n] = getattr(_random, n)
            setattr(_random, n, f)
        yield ch
    finally:
        for n, f in saved_np.items():
            setattr(np.random, n, f)
        for n, f in saved_py.items():
            setattr(_random, n, f)


def run_with(body, prefix=(), seed=0, **kw):
    ch = Chooser(prefix, seed=seed, **kw)
    with owned(ch):
        out = body(ch)
    if len(ch.points) < len(ch.prefix):
        raise HarnessError('replay diverged: prefix of %d choices but only %d points' %
                           (len(ch.prefix), len(ch.points)))
    return ch, out


def explore(body, bound=None, seed=0, max_execs=None, branch=None, **kw):
    """
    Yields (chooser, out) for every execution within the deviation bound.
    `body(chooser)` runs the harness (exceptions of the library should be caught inside and returned).
    `branch(kind)` -> False to keep the default at choice points of that kind (not explored).
    Order: depth-first, fewest deviations / earliest point / lowest alternative first.
    """
    stack = [[]]
    n = 0
    while stack:
        prefix = stack.pop()
        ch, out = run_with(body, prefix, seed=seed, **kw)
        n += 1
        yield ch, out
        if max_execs is not None and n >= max_execs:
            ch.capped = True
            return
        nxt = []
        base_dev = sum(1 for c in ch.choices[:len(prefix)] if c != 0)
        dev = base_dev
        for i in range(len(prefix), len(ch.points)):
            kind, nopt = ch.points[i]
            # choices after the prefix are all defaults, so deviations so far == base_dev
            if bound is not None and dev + 1 > bound:
                break
            if branch is not None and not branch(kind):
                continue
            for alt in range(1, nopt):
                nxt.append(ch.choices[:i] + [alt])
        stack.extend(reversed(nxt))
