"""
Engine BFS -- explicit-state search over call histories on the *real* objects.

A state is represented by the event history reaching it.  `build(hist)` creates
fresh objects and replays the events (live objects rarely copy), returning a
context object whose `.obs` is the list of observations, one per event.  For each
dequeued history and each event the successor is built, the per-transition oracle
and the per-state invariant are evaluated, and the successor is enqueued iff its
canonical state key is new.  The search runs to closure or to `depth_cap`.

Two ways to use the 16 cores:
  * default: the worker with index w explores only the sub-graph below the first-level events i with
    i % W == w (with its own seen-set), so the union of the workers covers every history up to the depth
    cap; the evidence merges the sets of state hashes (simple, but slices re-explore common states);
  * `level_sync = True`: the runner (mcv.core.run_level_bfs) keeps ONE seen-set in the parent process and
    farms the expansion of each BFS level out to the pool (expand_histories below), so no state is
    expanded twice.
"""
import hashlib
import collections
from .core import Family, Stats, Result, viol, jsonable, watchdog, Watchdog, HarnessError


def short_hash(key):
    return hashlib.sha1(repr(key).encode('utf8', 'backslashreplace')).hexdigest()[:16]


class BFSFamily(Family):
    kind = 'BFS'
    depth_cap = 4
    max_states = 200000
    timeout = 20.0
    stop_after_violations = 60

    def events(self, tier):
        raise NotImplementedError

    def build(self, hist):
        """fresh objects; replay hist; return ctx with .obs list"""
        raise NotImplementedError

    def state_key(self, ctx):
        raise NotImplementedError

    def check_transition(self, hist, ev, ctx):
        """oracle for the last event of hist+[ev]; return None or viol(...)"""
        return None

    def invariant(self, ctx):
        return None

    def event_label(self, ev):
        return ev

    def run_slice(self, tier, seed, w, W):
        st = Stats(self.name)
        self.setup(tier)
        evs = list(self.events(tier))
        depth_cap = self.depth_cap_for(tier) if hasattr(self, 'depth_cap_for') else self.depth_cap
        ctx0 = self.build([])
        k0 = self.state_key(ctx0)
        seen = {k0}
        hashes = {short_hash(k0)}
        frontier = collections.deque([[]])
        maxdepth = 0
        closed = True
        stopped = False
        while frontier and not stopped:
            hist = frontier.popleft()
            for i, ev in enumerate(evs):
                if st.nviolations >= self.stop_after_violations:
                    # a broken tree can blow the state space up; the violations found so far are the verdict
                    st.exhaustive = False
                    st.cap_note = 'search stopped after %d violations' % st.nviolations
                    closed = False
                    stopped = True
                    break
                if not hist and (i % W) != w:
                    continue
                nh = hist + [i]
                try:
                    with watchdog(self.timeout):
                        ctx = self.build([evs[j] for j in nh])
                        v = self.check_transition([evs[j] for j in hist], ev, ctx)
                        if v is None:
                            v = self.invariant(ctx)
                except Watchdog:
                    v = viol(self.timeout_sig, 'history did not finish within %.0fs' % self.timeout)
                    ctx = None
                case = {'history': [jsonable(self.event_label(evs[j])) for j in nh]}
                res = Result('violation' if v else 'ok', True, v, calls=len(nh))
                st.add(case, res)
                st.transitions += 1
                if len(st.samples) < 2 and len(nh) >= min(2, depth_cap):
                    st.samples.append({'family': self.name, 'case': case,
                                       'observations': jsonable(ctx.obs) if ctx is not None else None})
                if ctx is None:
                    continue
                k = self.state_key(ctx)
                if k not in seen:
                    if len(seen) >= self.max_states:
                        st.exhaustive = False
                        st.cap_note = 'max_states %d reached' % self.max_states
                        closed = False
                        continue
                    seen.add(k)
                    hashes.add(short_hash(k))
                    if len(nh) < depth_cap:
                        frontier.append(nh)
                        maxdepth = max(maxdepth, len(nh))
                    else:
                        closed = False     # new state at the cap: not expanded
        st.states = len(seen)
        st.extra['state_hashes'] = sorted(hashes)
        st.extra['closure_reached_all_slices'] = 1 if closed else 0
        st.extra['slices'] = 1
        st.extra['max_depth_expanded'] = [maxdepth]
        st.extra['depth_cap'] = [depth_cap]
        return st

    def replay(self, case):
        evs = list(self.events('thorough'))
        evs += [e for e in self.events('quick') if e not in evs]      # a tier may have events of its own
        by_label = {repr(jsonable(self.event_label(e))): e for e in evs}
        hist = []
        for lab in case['history']:
            key = repr(lab)
            if key not in by_label:
                raise HarnessError('replay: unknown event %r' % (lab,))
            hist.append(by_label[key])
        ctx = self.build(hist)
        v = self.check_transition(hist[:-1], hist[-1], ctx)
        if v is None:
            v = self.invariant(ctx)
        return Result('violation' if v else 'ok', True, v, calls=len(hist))


def expand_histories(fam, tier, hists):
    """
    Worker side of the level-synchronous search: for every history in `hists` (lists of event indexes) and every
    event, build the successor on fresh objects, evaluate the transition oracle and the state invariant, and
    return (new_history, state_hash, violation-or-None, observations).  An empty `hists` returns the initial state.
    """
    evs = list(fam.events(tier))
    if not hists:
        ctx0 = fam.build([])
        return [([], short_hash(fam.state_key(ctx0)), None, None)]
    out = []
    for hist in hists:
        for i, ev in enumerate(evs):
            nh = hist + [i]
            ctx = None
            try:
                with watchdog(fam.timeout):
                    ctx = fam.build([evs[j] for j in nh])
                    v = fam.check_transition([evs[j] for j in hist], ev, ctx)
                    if v is None:
                        v = fam.invariant(ctx)
            except Watchdog:
                v = viol(fam.timeout_sig, 'history did not finish within %.0fs' % fam.timeout)
                ctx = None
            h = short_hash(fam.state_key(ctx)) if ctx is not None else None
            label = [jsonable(fam.event_label(evs[j])) for j in nh]
            obs = jsonable(ctx.obs) if (ctx is not None and len(nh) == 2 and i == 1) else None
            out.append((nh, h, v, label if (v is not None or obs is not None) else None, obs))
    return out


def finalize_bfs_stats(st):
    """After merging slices: the number of states is the number of distinct state hashes."""
    if 'state_hashes' in st.extra:
        st.states = len(st.extra['state_hashes'])
        n = st.extra.get('slices', 1)
        st.extra['closure_reached'] = (st.extra.get('closure_reached_all_slices', 0) == n)
        del st.extra['state_hashes']
