"""
Engine BFS -- explicit-state search over call histories on the *real* objects.

A state is represented by the event history reaching it.  `build(hist)` creates
fresh objects and replays the events (live objects rarely copy), returning a
context object whose `.obs` is the list of observations, one per event.  For each
dequeued history and each event the successor is built, the per-transition oracle
and the per-state invariant are evaluated, and the successor is enqueued iff its
canonical state key is new.  The search runs to closure or to `depth_cap`.

Parallel split: the worker with index w explores only the sub-graph below the
first-level events i with i % W == w (with its own seen-set), so the union of
the workers covers every history up to the depth cap; the evidence merges the
sets of state hashes.
"""
import hashlib
import collections
from .core import Family, Stats, Result, viol, jsonable, watchdog, Watchdog, HarnessError


def short_hash(key):
    return hashlib.sha1(repr(key).encode('utf8', 'backslashreplace')).hexdigest()[:16]


class BFSFamily(Family):
    kind = 'BFS'
    depth_cap = 4
    max_states = 200000
    timeout = 20.0
    stop_after_violations = 60

    def events(self, tier):
        raise NotImplementedError

    def build(self, hist):
        """fresh objects; replay hist; return ctx with .obs list"""
        raise NotImplementedError

    def state_key(self, ctx):
        raise NotImplementedError

    def check_transition(self, hist, ev, ctx):
        """oracle for the last event of hist+[ev]; return None or viol(...)"""
        return None

    def invariant(self, ctx):
        return None

    def event_label(self, ev):
        return ev

    def run_slice(self, tier, seed, w, W):
        st = Stats(self.name)
        self.setup(tier)
        evs = list(self.events(tier))
        depth_cap = self.depth_cap_for(tier) if hasattr(self, 'depth_cap_for') else self.depth_cap
        ctx0 = self.build([])
        k0 = self.state_key(ctx0)
        seen = {k0}
        hashes = {short_hash(k0)}
        frontier = collections.deque([[]])
        maxdepth = 0
        closed = True
        stopped = False
        while frontier and not stopped:
            hist = frontier.popleft()
            for i, ev in enumerate(evs):
                if st.nviolations >= self.stop_after_violations:
                    # a broken tree can blow the state space up; the violations found so far are the verdict
                    st.exhaustive = False
                    st.cap_note = 'search stopped after %d violations' % st.nviolations
                    closed = False
                    stopped = True
                    break
                if not hist and (i % W) != w:
                    continue
                nh = hist + [i]
                try:
                    with watchdog(self.timeout):
                        ctx = self.build([evs[j] for j in nh])
                        v = self.check_transition([evs[j] for j in hist], ev, ctx)
                        if v is None:
                            v = self.invariant(ctx)
                except Watchdog:
                    v = viol(self.timeout_sig, 'history did not finish within %.0fs' % self.timeout)
                    ctx = None
                case = {'history': [jsonable(self.event_label(evs[j])) for j in nh]}
                res = Result('violation' if v else 'ok', True, v, calls=len(nh))
                st.add(case, res)
                st.transitions += 1
                if len(st.samples) < 2 and len(nh) >= min(2, depth_cap):
                    st.samples.append({'family': self.name, 'case': case,
                                       'observations': jsonable(ctx.obs) if ctx is not None else None})
                if ctx is None:
                    continue
                k = self.state_key(ctx)
                if k not in seen:
                    if len(seen) >= self.max_states:
                        st.exhaustive = False
                        st.cap_note = 'max_states %d reached' % self.max_states
                        closed = False
                        continue
                    seen.add(k)
                    hashes.add(short_hash(k))
                    if len(nh) < depth_cap:
                        frontier.append(nh)
                        maxdepth = max(maxdepth, len(nh))
                    else:
                        closed = False     # new state at the cap: not expanded
        st.states = len(seen)
        st.extra['state_hashes'] = sorted(hashes)
        st.extra['closure_reached_all_slices'] = 1 if closed else 0
        st.extra['slices'] = 1
        st.extra['max_depth_expanded'] = [maxdepth]
        st.extra['depth_cap'] = [depth_cap]
        return st

    def replay(self, case):
        evs = list(self.events('thorough'))
        by_label = {repr(jsonable(self.event_label(e))): e for e in evs}
        hist = []
        for lab in case['history']:
            key = repr(lab)
            if key not in by_label:
                raise HarnessError('replay: unknown event %r' % (lab,))
            hist.append(by_label[key])
        ctx = self.build(hist)
        v = self.check_transition(hist[:-1], hist[-1], ctx)
        if v is None:
            v = self.invariant(ctx)
        return Result('violation' if v else 'ok', True, v, calls=len(hist))


def finalize_bfs_stats(st):
    """After merging slices: the number of states is the number of distinct state hashes."""
    if 'state_hashes' in st.extra:
        st.states = len(st.extra['state_hashes'])
        n = st.extra.get('slices', 1)
        st.extra['closure_reached'] = (st.extra.get('closure_reached_all_slices', 0) == n)
        del st.extra['state_hashes']
