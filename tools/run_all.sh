#!/bin/sh
# tools/run_all.sh [quick|thorough] [seed]  -- runs every claimed check, prints one line each
tier=${1:-quick}; seed=${2:-0}
cd "$(dirname "$0")/.."
for p in $(cat tools/ready.txt); do
  s=$(date +%s)
  out=$(VERIF_SEED=$seed ./check $p $tier 2>&1); rc=$?
  e=$(date +%s)
  echo "$p $tier seed=$seed rc=$rc $((e-s))s $(echo "$out" | grep -c '^VIOLATION') violations $(echo "$out" | grep -c '^KNOWN-FINDING') known"
  if [ $rc -ne 0 ]; then echo "$out" | grep -v DLASCL | tail -15; fi
done
