#!/usr/bin/env python3
"""Regenerates /verif/seeded/INDEX.md from the meta.json files."""
import glob
import json
import os

VERIF = os.path.dirname(os.path.dirname(os.path.abspath(__file__)))
rows = []
for m in sorted(glob.glob(os.path.join(VERIF, 'seeded', '*', 'meta.json'))):
    d = json.load(open(m))
    name = os.path.basename(os.path.dirname(m))
    checks = d.get('checks', {})
    res = []
    for prop in sorted(checks):
        c = checks[prop]
        if isinstance(c, dict) and 'rc' in c:
            res.append('%s %s: %s' % (prop, c.get('tier', '?'), 'DETECTED' if c['rc'] == 1 else ('silent' if c['rc'] == 0 else 'harness error')))
    rows.append((name, d.get('property', '?'), d.get('needs_to_manifest', '').replace('\n', ' ').replace('|', '/'),
                 'yes' if d.get('confirmed') else 'NO', '; '.join(res), d.get('comment', '')))
with open(os.path.join(VERIF, 'seeded', 'INDEX.md'), 'w') as f:
    f.write('# Independently seeded property-breaking changes\n\n'
            'Each was written by a sub-agent that saw only the property text and its own worktree, then confirmed here with\n'
            '`tools/seed_eval.py` (demo passes on a clean copy and fails with the patch; the repository suite equals its baseline\n'
            'with the patch). "checks" shows what `./check` reports with `MCV_REPO` pointing at a patched copy.\n\n'
            '| seed | property | needs, to manifest | confirmed | checks | comment |\n|---|---|---|---|---|---|\n')
    for r in rows:
        f.write('| %s | %s | %s | %s | %s | %s |\n' % r)
print('%d seeds' % len(rows))
