#!/usr/bin/env python3
"""Regenerates /verif/MANIFEST.json from the table below + which mcv/props/cNN.py exist."""
import json
import os

VERIF = os.path.dirname(os.path.dirname(os.path.abspath(__file__)))

BASELINE = ("cd /repo && /venv/bin/python -m pytest -ra -q -p no:cacheprovider --timeout=900 "
            "--continue-on-collection-errors")

COMMON_NOTE = ("Trusted base: the Python reference models under mcv/refs and in the property module, CPython, "
               "numpy; the explorer itself (mcv/core.py, chooser.py, bfs.py). Nothing is claimed outside the "
               "stated alphabets and bounds. scipy is absent, so IntegralGrader calls, Orthogonal/Unitary "
               "samplers and factorial are outside what can run.")

P = {
    'C01': ('ENUM', '4 C01', 'bounded exhaustive enumeration of configurations x inputs x attempts on the real graders',
            'Every configuration of a finite grammar per grader family x every input tuple over a small alphabet x '
            'attempt numbers is executed; structural invariants of the edX result are checked on each.'),
    'C02': ('ENUM', '4 C02', 'bounded exhaustive enumeration of token strings / hostile expressions / non-text objects with a front-door reference model',
            'All token strings up to a length bound and all hostile-leaf expressions up to depth 2 are submitted to '
            'debug=True and debug=False twins; a reference model of the front door predicts the debug=False outcome.'),
    'C03': ('ENUM', '4 C03', 'bounded exhaustive enumeration of expression strings against an independent reference parser/evaluator',
            'All token strings up to length 5/6, all operator chains up to 4 operators x sign slots x 5 renderings and all '
            'number literals up to 5/6 characters are evaluated by the real evaluator and an independent reference.'),
    'C04': ('CHOICE', '4 C04', 'exhaustive enumeration of RNG answers (full product of sample values) with a counting oracle',
            'The RNG is owned by the explorer; every combination of sampled values for n<=3 samples x tolerances x '
            'failable_evals x credits is executed and compared with the count of out-of-tolerance samples.'),
    'C05': ('ENUM', '4 C05', 'bounded exhaustive enumeration of credit tables / input orders / groupings with brute-force assignment oracle',
            'All n x n credit tables (n<=3 over {0,1/2,1}, n=4 over {0,1}), all n! input orders for n<=6, pairs of '
            'answer lists and all valid groupings are graded by the real ListGrader and compared with brute force.'),
    'C06': ('ENUM+BFS', '4 C06', 'bounded exhaustive enumeration of cost matrices + explicit-state search over solver reuse',
            'Every matrix of the stated finite families is solved by the real Munkres and compared with the brute-force '
            'minimum; one solver instance is driven through all solve sequences to closure of its canonical state.'),
    'C07': ('ENUM', '4 C07', 'bounded exhaustive enumeration of expected lists x submissions x flags with closed-form oracle',
            'All expected lists of <=3 items x all submissions of <=5 symbols x 16 flag sets x delimiters x nesting are '
            'graded by the real SingleListGrader and compared with the documented credit formula (brute-force matching).'),
    'C08': ('ENUM', '4 C08', 'bounded exhaustive enumeration of ordered alternative tuples with decomposition oracle',
            'Every ordered tuple of up to 4 alternatives from a pool of 7 x inputs x wrong_msg, for six grader kinds, is '
            'compared with the maximum over single-alternative graders.'),
    'C09': ('ENUM', '4 C09', 'bounded exhaustive enumeration of restriction configs x cheating formulas x renderings',
            'Every restriction configuration x every (correct answer + neutralised restricted construct) x renderings is '
            'submitted; none may earn credit, all must raise the documented student-facing error.'),
    'C10': ('ENUM+BFS', '4 C10', 'explicit-state search over parse/evaluate histories on the shared parser + exhaustive name-set enumeration',
            'Name sets of every accepted enumerated string are compared with construction; the shared parser is driven '
            'through all call sequences over a string alphabet to closure and compared with a fresh parser at each step.'),
    'C11': ('BFS', '4 C11', 'explicit-state search over grader call histories with a reference state machine and fresh-instance differential',
            'Each grader kind is driven through all call sequences up to length 4 over the event alphabet with canonical-state '
            'de-duplication; every call is compared with a fresh grader and global/author-config snapshots are invariants.'),
    'C12': ('CHOICE', '4 C12', 'enumeration of RNG answers (full product for discrete draws, deviation-bounded for array fills) over all sampler option grids',
            'All sampler classes x option grids (all 288 SquareMatrices combinations) are sampled under every RNG answer '
            'schedule within the deviation bound; membership predicates of the declared set are checked on every draw.'),
    'C13': ('ENUM+CHOICE', '4 C13', 'exhaustive enumeration of dependency digraphs x declaration orders x RNG answers',
            'Every labelled digraph on <=4 nodes in every declaration order is turned into a sampling configuration; '
            'sample dictionaries are recomputed by an exact oracle; cyclic/dangling graphs must raise ConfigError.'),
    'C14': ('ENUM', '4 C14', 'exhaustive enumeration of the shape lattice x operators x call forms with a legality table',
            'All ordered pairs of 23 shapes x 5 operators x real/complex x exponent kinds x 4 call forms are executed and '
            'compared with a nested-list linear algebra reference and a legality table.'),
    'C15': ('ENUM', '4 C15', 'exhaustive enumeration of function table x argument grid x arity/shape errors (grid: weakest check)',
            'Every default function x a fixed real/complex grid incl. branch cuts and poles x wrong arities/shapes is evaluated '
            'and compared with cmath/math compositions; a finite grid, nothing is claimed between grid points.'),
    'C16': ('ENUM+CHOICE', '4 C16', 'exhaustive enumeration of comparer parameter grids (members/non-members) with owned RNG',
            'Per comparer, members generated by the defining transformation and non-members at 10x tolerance are graded '
            'under owned sampling; verdicts are compared with the defining relation.'),
    'C17': ('ENUM', '4 C17', 'exhaustive enumeration of schedule parameters x attempts x base results with arithmetic oracle',
            'All schedule parameter grids x attempts 1..200 and all grader/base-result/attempt/flag combinations are executed '
            'and compared with an arithmetic reference.'),
    'C18': ('ENUM', '4 C18', 'exhaustive enumeration of string pairs x flag sets with reference normaliser',
            'Every (expected, submission) pair of strings up to length 3/4 over {a,A,space,tab} x 16 flag sets, whitespace-unit '
            'edits, accept_any grids and validation patterns are graded and compared with a reference normaliser + re.fullmatch.'),
    'C19': ('ENUM+CHOICE', '4 C19', 'exhaustive enumeration of limit pairs x parity x summands x student transformations with reference sum',
            'All limit pairs in a square x parity x summands x transformations x input_positions subsets are graded by the '
            'real SumGrader and compared with an exact Python reference sum.'),
    'C20': ('ENUM', '4 C20', 'exhaustive enumeration of single and paired option deviations against a documented option-domain table',
            'For every public class every single-option deviation (and pairs, thorough) from the minimal valid configuration is '
            'constructed; acceptance, defaults, canonical answers and re-construction equality are compared with the table.'),
}


def main():
    checks = []
    na = []
    ready = set(open(os.path.join(VERIF, 'tools', 'ready.txt')).read().split())
    for pid in sorted(P):
        engine, ref, technique, text = P[pid]
        if pid in ready and os.path.exists(os.path.join(VERIF, 'mcv', 'props', pid.lower() + '.py')):
            checks.append({
                'property_id': pid,
                'quick_cmd': './check %s quick' % pid,
                'thorough_cmd': './check %s thorough' % pid,
                'evidence_file': '/verif/evidence/%s.json' % pid,
                'replay_cmd_template': './check %s --replay {path}' % pid,
                'engine': 'mcv-' + engine,
                'level_claimed': {
                    'category': 'model_checking',
                    'text': text + ' These are the core families; further exhaustive families (added after seeded-defect waves and '
                                   'gap reviews) are listed with their rules and counts in the evidence file and in DESIGN.md '
                                   'sections 8 and 10. Small-scope exhaustive: the verdict covers every case inside the stated '
                                   'bounds, executed on the implementation itself (no separate model).',
                    'design_ref': 'DESIGN.md section ' + ref,
                },
                'level_note': COMMON_NOTE,
                'technique': technique,
            })
        else:
            na.append({'property_id': pid,
                       'reason': 'check not built yet in this revision (planned: %s); see DESIGN.md' % technique})
    man = {
        'version': 1,
        'setup_cmd': 'mkdir -p evidence replays',
        'hooks': {
            'guard': 'MITXGRADERS_VERIF',
            'enable': 'none needed: checks import /repo\'s working tree directly (MCV_REPO overrides the path); '
                      'RNG and shared parser are patched from outside at run time',
            'baseline_off_cmd': BASELINE,
            'source_commits': [],
            'add_only': True,
        },
        'engines': [
            {'name': 'mcv-ENUM', 'path': 'mcv/core.py', 'serves_properties': [p for p in sorted(P) if 'ENUM' in P[p][0]],
             'kind_free_text': 'bounded exhaustive enumeration of inputs/configurations/expressions on the real code vs reference models'},
            {'name': 'mcv-CHOICE', 'path': 'mcv/chooser.py', 'serves_properties': [p for p in sorted(P) if 'CHOICE' in P[p][0]],
             'kind_free_text': 'the RNG as explored environment: every draw is a choice point; full product or deviation-bounded'},
            {'name': 'mcv-BFS', 'path': 'mcv/bfs.py', 'serves_properties': [p for p in sorted(P) if 'BFS' in P[p][0]],
             'kind_free_text': 'explicit-state search over call histories on real objects with canonical-state dedup'},
        ],
        'checks': checks,
        'notes': 'Run with /venv/bin/python via ./check; 16 worker processes; VERIF_SEED rotates work assignment '
                 'and default RNG answers only. KNOWN_FINDINGS.json lists genuine defects (open or fixed).',
        'not_applicable': na,
    }
    with open(os.path.join(VERIF, 'MANIFEST.json'), 'w') as f:
        json.dump(man, f, indent=1)
    print('MANIFEST: %d checks, %d not yet built' % (len(checks), len(na)))


if __name__ == '__main__':
    main()
