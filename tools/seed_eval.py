#!/usr/bin/env python3
"""
tools/seed_eval.py SEEDDIR PROP [--name NAME] [--tier quick|thorough] [--keep] [--other C02,C11]

Confirms a seeded defect independently and evaluates the checks against it:
  1. clean scratch copy of /repo HEAD: demo.py must exit 0, repo test-suite must equal the baseline;
  2. copy with patch.diff applied: test-suite must still equal the baseline, demo.py must exit non-zero;
  3. ./check PROP <tier> with MCV_REPO=<patched copy>: DETECTED / silent.
With --keep the seed is stored as /verif/seeded/<NAME>/ (patch.diff, demo.py, notes.md, meta.json).
Nothing is applied to /repo.
"""
import argparse
import json
import os
import re
import shutil
import subprocess
import sys
import tempfile
import time

VERIF = os.path.dirname(os.path.dirname(os.path.abspath(__file__)))


def run_suite(d):
    p = subprocess.run(['/venv/bin/python', '-m', 'pytest', '-q', '-p', 'no:cacheprovider', '-rfE', '--timeout=900',
                        '--continue-on-collection-errors'], cwd=d, stdout=subprocess.PIPE, stderr=subprocess.STDOUT,
                       universal_newlines=True)
    failed = sorted(m.group(2) for m in (re.match(r'(FAILED|ERROR) (\S+)', l) for l in p.stdout.splitlines()) if m)
    tail = [l for l in p.stdout.splitlines() if l.strip()][-1]
    return failed, tail


def main():
    ap = argparse.ArgumentParser()
    ap.add_argument('seeddir')
    ap.add_argument('prop')
    ap.add_argument('--name')
    ap.add_argument('--tier', default='quick')
    ap.add_argument('--keep', action='store_true')
    ap.add_argument('--other', default='')
    ap.add_argument('--needs', default='')
    a = ap.parse_args()
    sd = os.path.abspath(a.seeddir)
    patch = os.path.join(sd, 'patch.diff')
    demo = os.path.join(sd, 'demo.py')
    tmp = tempfile.mkdtemp(prefix='seedeval.')
    report = {'property': a.prop, 'seed_source': sd, 'ran': []}
    try:
        clean = os.path.join(tmp, 'clean')
        subprocess.check_call(['git', '-C', '/repo', 'worktree', 'add', '--detach', clean, 'HEAD'],
                              stdout=subprocess.DEVNULL, stderr=subprocess.DEVNULL)
        try:
            os.makedirs(os.path.join(clean, 'SEED'), exist_ok=True)
            shutil.copy(demo, os.path.join(clean, 'SEED', 'demo.py'))
            base_failed, base_tail = run_suite(clean)
            p = subprocess.run(['/venv/bin/python', 'SEED/demo.py'], cwd=clean, stdout=subprocess.PIPE,
                               stderr=subprocess.STDOUT, universal_newlines=True, timeout=900)
            report['demo_clean_rc'] = p.returncode
            report['ran'].append('demo.py on clean HEAD copy -> rc %d' % p.returncode)
            ap_ = subprocess.run(['git', 'apply', patch], cwd=clean, stdout=subprocess.PIPE, stderr=subprocess.STDOUT,
                                 universal_newlines=True)
            if ap_.returncode:
                print('PATCH DOES NOT APPLY:', ap_.stdout)
                return 3
            mut_failed, mut_tail = run_suite(clean)
            report['suite_baseline'] = base_tail
            report['suite_with_patch'] = mut_tail
            report['suite_same_failures'] = (mut_failed == base_failed)
            report['ran'].append('repo test-suite on clean copy (%s) and with patch (%s)' % (base_tail, mut_tail))
            p = subprocess.run(['/venv/bin/python', 'SEED/demo.py'], cwd=clean, stdout=subprocess.PIPE,
                               stderr=subprocess.STDOUT, universal_newlines=True, timeout=900)
            report['demo_patched_rc'] = p.returncode
            report['demo_patched_tail'] = p.stdout.strip().splitlines()[-3:]
            report['ran'].append('demo.py with patch -> rc %d' % p.returncode)
            env = dict(os.environ)
            env['MCV_REPO'] = clean
            env['MCV_EVIDENCE_DIR'] = os.path.join(tmp, 'evidence')
            env['MCV_REPLAY_DIR'] = os.path.join(tmp, 'replays')
            report['checks'] = {}
            for prop in [a.prop] + [x for x in a.other.split(',') if x]:
                t0 = time.time()
                c = subprocess.run([os.path.join(VERIF, 'check'), prop, a.tier], env=env, stdout=subprocess.PIPE,
                                   stderr=subprocess.STDOUT, universal_newlines=True)
                lines = c.stdout.splitlines()
                vio = [l for l in lines if l.startswith('VIOLATION')]
                sigs = [l.strip() for l in lines if l.strip().startswith('family=')]
                report['checks'][prop] = {'tier': a.tier, 'rc': c.returncode, 'violations': len(vio), 'first': sigs[:3],
                                          'wall_s': round(time.time() - t0, 1)}
                report['ran'].append('./check %s %s with MCV_REPO=<patched copy> -> rc %d' % (prop, a.tier, c.returncode))
        finally:
            subprocess.call(['git', '-C', '/repo', 'worktree', 'remove', '--force', clean],
                            stdout=subprocess.DEVNULL, stderr=subprocess.DEVNULL)
        ok = (report['demo_clean_rc'] == 0 and report['demo_patched_rc'] != 0 and report['suite_same_failures'])
        report['confirmed'] = ok
        print(json.dumps(report, indent=1))
        if a.keep and ok:
            name = a.name or os.path.basename(sd)
            dst = os.path.join(VERIF, 'seeded', name)
            os.makedirs(dst, exist_ok=True)
            for f in ('patch.diff', 'demo.py', 'notes.md'):
                if os.path.exists(os.path.join(sd, f)):
                    shutil.copy(os.path.join(sd, f), os.path.join(dst, f))
            meta_path = os.path.join(dst, 'meta.json')
            meta = {}
            if os.path.exists(meta_path):
                meta = json.load(open(meta_path))
            meta.update({'property': a.prop, 'breaks': a.prop, 'needs_to_manifest': a.needs or meta.get('needs_to_manifest', 'see notes.md'),
                         'origin': 'independent sub-agent given only the property text and its own worktree',
                         'confirmed': ok, 'what_was_run': report['ran'],
                         'suite_baseline': report['suite_baseline'], 'suite_with_patch': report['suite_with_patch'],
                         'demo_rc_clean': report['demo_clean_rc'], 'demo_rc_patched': report['demo_patched_rc']})
            meta.setdefault('checks', {}).update(report['checks'])
            json.dump(meta, open(meta_path, 'w'), indent=1)
            print('stored', dst)
        return 0
    finally:
        shutil.rmtree(tmp, ignore_errors=True)


if __name__ == '__main__':
    sys.exit(main())
