#!/bin/sh
# runs the repository's own suite on /repo (or $1) and prints the summary line; expected: 36 failed, 363 passed
cd "${1:-/repo}" && /venv/bin/python -m pytest -q -p no:cacheprovider --timeout=900 --continue-on-collection-errors 2>&1 | tail -1
