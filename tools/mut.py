#!/usr/bin/env python3
"""
tools/mut.py -- try one deliberate source change in a scratch copy of the repo.

  tools/mut.py [--tests] [--tier quick] [--patch FILE | --file F --old S --new S [--count N]] PROP [PROP...]

Copies $MCV_SRC (default /repo) to a scratch dir under /tmp, applies the change there,
runs ./check PROP with MCV_REPO pointing at the copy (evidence is written to a scratch
evidence dir, not /verif/evidence), optionally runs the repository's own tests in the
copy, prints one line per property, removes the copy.
"""
import argparse
import os
import shutil
import subprocess
import sys
import tempfile

VERIF = os.path.dirname(os.path.dirname(os.path.abspath(__file__)))


def main():
    ap = argparse.ArgumentParser()
    ap.add_argument('--tests', action='store_true')
    ap.add_argument('--tier', default='quick')
    ap.add_argument('--patch')
    ap.add_argument('--file')
    ap.add_argument('--old')
    ap.add_argument('--new')
    ap.add_argument('--count', type=int, default=1)
    ap.add_argument('--keep', action='store_true')
    ap.add_argument('--verbose', '-v', action='store_true')
    ap.add_argument('props', nargs='+')
    a = ap.parse_args()
    src = os.environ.get('MCV_SRC', '/repo')
    tmp = tempfile.mkdtemp(prefix='mcvmut.')
    dst = os.path.join(tmp, 'repo')
    shutil.copytree(src, dst, ignore=shutil.ignore_patterns('.git', '__pycache__', '*.pyc', 'site', '.pytest_cache'))
    rc_all = 0
    try:
        if a.patch:
            p = subprocess.run(['patch', '-p1', '-s', '-i', os.path.abspath(a.patch)], cwd=dst)
            if p.returncode:
                print('PATCH FAILED')
                return 3
        else:
            path = os.path.join(dst, a.file)
            s = open(path).read()
            n = s.count(a.old)
            if n != a.count:
                print('MUT ERROR: %r occurs %d times in %s (expected %d)' % (a.old, n, a.file, a.count))
                return 3
            open(path, 'w').write(s.replace(a.old, a.new))
        if a.tests:
            import json
            import re
            p = subprocess.run(['/venv/bin/python', '-m', 'pytest', '-q', '-p', 'no:cacheprovider', '-rfE',
                                '--timeout=900', '--continue-on-collection-errors'],
                               cwd=dst, stdout=subprocess.PIPE, stderr=subprocess.STDOUT, universal_newlines=True)
            base = json.load(open('/root/.vp/BASELINE.json'))
            known = set(base['always_fail'])
            failed = []
            for l in p.stdout.splitlines():
                m = re.match(r'(FAILED|ERROR) (\S+)', l)
                if m:
                    ident = m.group(2)
                    path, _, name = ident.partition('::')
                    mod = path[:-3].replace('/', '.') if path.endswith('.py') else path.replace('/', '.')
                    key = mod + '::' + (name if not path.endswith('.md') else path.split('/')[-1])
                    if key not in known and not any(k.endswith('::' + name) and k.startswith(mod) for k in known):
                        failed.append(ident)
            tail = [l for l in p.stdout.splitlines() if l.strip()][-1:]
            print('TESTS: %s | new failures vs baseline: %d %s' % (tail[0] if tail else p.returncode, len(failed),
                                                                 failed[:6]))
        env = dict(os.environ)
        env['MCV_REPO'] = dst
        env['MCV_EVIDENCE_DIR'] = os.path.join(tmp, 'evidence')
        env['MCV_REPLAY_DIR'] = os.path.join(tmp, 'replays')
        for prop in a.props:
            p = subprocess.run([os.path.join(VERIF, 'check'), prop, a.tier], env=env, stdout=subprocess.PIPE,
                               stderr=subprocess.STDOUT, universal_newlines=True)
            lines = p.stdout.splitlines()
            vio = [l for l in lines if l.startswith('VIOLATION')]
            print('%s rc=%d %s' % (prop, p.returncode, 'DETECTED (%d)' % len(vio) if p.returncode == 1 else
                                   ('silent' if p.returncode == 0 else 'HARNESS ERROR')))
            if a.verbose or p.returncode == 2:
                print('\n'.join(lines[-40:]))
            elif vio:
                idx = lines.index(vio[0])
                print('\n'.join('    ' + l[:300] for l in lines[idx:idx + 4]))
            rc_all = max(rc_all, p.returncode)
    finally:
        if not a.keep:
            shutil.rmtree(tmp, ignore_errors=True)
        else:
            print('kept', tmp)
    return 0


if __name__ == '__main__':
    sys.exit(main())
